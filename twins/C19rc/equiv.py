# -*- coding: utf-8 -*-
"""Equivalence digest for renormalizer.utils.rk (property C19).

Exercises TaylorExpansion.__init__, RungeKutta.__init__ / get_tableau and
RungeKutta.runge_kutta_ti_coefficient on all shipped methods and on a number
of unusual, user-modified tableaux.  All numbers are printed bit-exactly.
"""
import warnings

import numpy as np

warnings.simplefilter("ignore")

from renormalizer.utils import rk as rkmod
from renormalizer.utils.rk import RungeKutta, TaylorExpansion, method_list


def num(x):
    x = complex(x) if np.iscomplexobj(x) else float(x)
    if isinstance(x, complex):
        return "(%s,%s)" % (float(x.real).hex(), float(x.imag).hex())
    return x.hex()


def arr(x):
    if not isinstance(x, np.ndarray):
        return "NOT-ARRAY %s %r" % (type(x).__name__, x)
    flat = " ".join(num(v) for v in x.ravel())
    return "shape=%s dtype=%s own=%s C=%s W=%s [%s]" % (
        x.shape, x.dtype, x.flags.owndata, x.flags.c_contiguous,
        x.flags.writeable, flat)


def attempt(label, func):
    try:
        res = func()
    except BaseException as e:  # noqa
        print(label, "-> EXC", type(e).__name__, str(e)[:120])
        return None
    print(label, "->", res)
    return res


print("== module")
print("method_list", method_list)
print("public names", sorted(n for n in dir(rkmod) if not n.startswith("_")))

print("== TaylorExpansion")
for order in [-3, -1, 0, 1, 2, 3, 4, 5, 10, 20, 25, 170, 171, 175, True,
              np.int64(4), np.int32(6)]:
    def f(order=order):
        t = TaylorExpansion(order)
        return "order=%r(%s) attrs=%s coeff=%s" % (
            t.order, type(t.order).__name__, sorted(vars(t)), arr(t.coeff))
    attempt("taylor %r" % (order,), f)
for order in [2.0, 2.5, "3", None, [1], np.array([1, 2])]:
    attempt("taylor-bad %r" % (order,), lambda order=order: arr(TaylorExpansion(order).coeff))

print("== RungeKutta shipped methods")
for method in method_list:
    r = RungeKutta(method)
    print("method", method, "attrs", sorted(vars(r)))
    print("  stage %r (%s) order %r (%s)" % (
        r.stage, type(r.stage).__name__, r.order, type(r.order).__name__))
    print("  tableau type", type(r.tableau).__name__, len(r.tableau))
    for name, t in zip("abc", r.tableau):
        print("  ", name, arr(t))
    # a second, independent call gives fresh objects with the same content
    tab2, st2, od2 = r.get_tableau()
    print("  again", type(tab2).__name__, st2, od2,
          all(np.array_equal(x, y) for x, y in zip(tab2, r.tableau)),
          any(x is y for x, y in zip(tab2, r.tableau)),
          any(np.shares_memory(x, y) for x, y in zip(tab2, r.tableau)))
    a, b, c = r.tableau
    print("   rowsum==c", num(np.abs(a.sum(axis=1) - c).max()),
          "sum b", [num(v) for v in b.sum(axis=1)])
    coeff = r.runge_kutta_ti_coefficient()
    print("   ti", arr(coeff))
    coeff2 = r.runge_kutta_ti_coefficient()
    print("   ti again equal", np.array_equal(coeff, coeff2), coeff is coeff2)
    # tableau is not mutated by the coefficient calculation
    print("   tableau untouched", all(np.array_equal(x, y) for x, y in zip(tab2, r.tableau)))

print("== default / bad construction")
r = RungeKutta()
print("default", r.method, r.stage, r.order)
for bad in ["rk4", "c_rk4", "", None, 4, ("C_RK4",), ["C_RK4"], b"C_RK4"]:
    attempt("ctor %r" % (bad,), lambda bad=bad: RungeKutta(bad).method)
attempt("ctor kw", lambda: RungeKutta(method="Cash-Karp45").order)

print("== get_tableau after the method attribute was changed")
for new in ["Heun_RK2", "midpoint_RK2", "Ralston_RK2", "Fehlberg5", "RKF45",
            "Cash-Karp45", "Forward_Euler", "nonsense", None, 3, ["RKF45"],
            {"a": 1}, ("Fehlberg5",), np.str_("RKF45"), np.str_("Heun_RK2")]:
    def f(new=new):
        r = RungeKutta("C_RK4")
        r.method = new
        tab, st, od = r.get_tableau()
        return "%s %r %r | %s" % (type(tab).__name__, st, od,
                                  " | ".join(arr(t) for t in tab))
    attempt("switch %r" % (new,), f)

print("== ti coefficient on user-modified tableaux")
rng = np.random.RandomState(1905)


def ti_with(a, b, c, stage, base="C_RK4"):
    r = RungeKutta(base)
    r.tableau = [a, b, c]
    r.stage = stage
    res = r.runge_kutta_ti_coefficient()
    return arr(res)


for n in [1, 2, 3, 5]:
    a_low = np.tril(rng.randn(n, n), -1)
    a_full = rng.randn(n, n)
    a_cplx = np.tril(rng.randn(n, n) + 1j * rng.randn(n, n), -1)
    b1 = rng.randn(n)
    b2 = rng.randn(2, n)
    b3 = rng.randn(3, n)
    bc = rng.randn(n) + 1j * rng.randn(n)
    c = a_low.sum(axis=1)
    attempt("n=%d low  b1d" % n, lambda: ti_with(a_low, b1, c, n))
    attempt("n=%d low  b2d" % n, lambda: ti_with(a_low, b2, c, n))
    attempt("n=%d low  b3rows" % n, lambda: ti_with(a_low, b3, c, n))
    attempt("n=%d full b1d (implicit)" % n, lambda: ti_with(a_full, b1, c, n))
    attempt("n=%d full b2d (implicit)" % n, lambda: ti_with(a_full, b2, c, n))
    attempt("n=%d upper b1d" % n, lambda: ti_with(a_full.T.copy(), b1, c, n))
    attempt("n=%d complex a" % n, lambda: ti_with(a_cplx, b1, c, n))
    attempt("n=%d complex b" % n, lambda: ti_with(a_low, bc, c, n))
    attempt("n=%d b (1,1,n)" % n, lambda: ti_with(a_low, b1.reshape(1, 1, n), c, n))
    attempt("n=%d b (2,1,n)" % n, lambda: ti_with(a_low, b2.reshape(2, 1, n), c, n))
    attempt("n=%d b (1,2,n)" % n, lambda: ti_with(a_low, b2.reshape(1, 2, n), c, n))
    attempt("n=%d b 0-d" % n, lambda: ti_with(a_low, np.array(0.7), c, n))
    attempt("n=%d b (0,n)" % n, lambda: ti_with(a_low, np.zeros((0, n)), c, n))
    attempt("n=%d b list" % n, lambda: ti_with(a_low, list(b1), c, n))
    attempt("n=%d a list" % n, lambda: ti_with(a_low.tolist(), b1, c, n))
    attempt("n=%d a int" % n, lambda: ti_with(np.tril(np.arange(n * n).reshape(n, n), -1), b1, c, n))
    attempt("n=%d a F-order" % n, lambda: ti_with(np.asfortranarray(a_low), b2, c, n))
    attempt("n=%d stage too small" % n, lambda: ti_with(a_low, b1, c, n - 1))
    attempt("n=%d stage too big" % n, lambda: ti_with(a_low, b1, c, n + 1))
    attempt("n=%d stage float" % n, lambda: ti_with(a_low, b1, c, float(n)))
    attempt("n=%d a with nan" % n, lambda: ti_with(a_low * np.nan, b1, c, n))
    attempt("n=%d a with inf" % n, lambda: ti_with(np.tril(np.full((n, n), np.inf), -1), b1, c, n))
    attempt("n=%d two-element tableau" % n, lambda: (lambda r: (setattr(r, "tableau", [a_low, b1]), r.runge_kutta_ti_coefficient())[1])(RungeKutta()))

attempt("stage 0", lambda: ti_with(np.zeros((0, 0)), np.zeros(0), np.zeros(0), 0))
attempt("stage 0 b2d", lambda: ti_with(np.zeros((0, 0)), np.zeros((2, 0)), np.zeros(0), 0))

print("== ti coefficient vs Taylor for shipped methods")
for method in method_list:
    r = RungeKutta(method)
    coeff = r.runge_kutta_ti_coefficient()
    for irow, p in enumerate(r.order):
        t = TaylorExpansion(p).coeff
        print(method, irow, p, num(np.abs(coeff[irow, :p + 1] - t).max()))

print("== subclass overriding get_tableau still used by __init__")


class MyRK(RungeKutta):
    def get_tableau(self):
        tab, st, od = super().get_tableau()
        return tab, st, od + (0,)


m = MyRK("Heun_RK2")
print(m.order, m.stage, arr(m.runge_kutta_ti_coefficient()))
