# -*- coding: utf-8 -*-
"""Equivalence digest for the C19 refactoring (utils/rk.py, Mps._evolve_prop_and_compress_tdrk4)."""
import warnings

import numpy as np

warnings.simplefilter("ignore")

from renormalizer.utils.rk import RungeKutta, TaylorExpansion, method_list
from renormalizer.model import Phonon, Mol, HolsteinModel
from renormalizer.mps import Mps, Mpo, MpDm
from renormalizer.utils import (EvolveMethod, EvolveConfig, CompressConfig,
                                CompressCriteria, Quantity)


def arr_digest(x):
    x = np.asarray(x)
    return f"{x.dtype} {x.shape} {x.tobytes().hex()}"


def attempt(label, func):
    try:
        res = func()
    except BaseException as e:  # noqa
        print(label, "EXC", type(e).__name__, str(e)[:120])
    else:
        print(label, res)


# --------------------------------------------------------------------------
# RungeKutta.__init__ / get_tableau / runge_kutta_ti_coefficient
# --------------------------------------------------------------------------
print("== tableaux")
for method in method_list:
    rk = RungeKutta(method)
    print(method, sorted(vars(rk).keys()), rk.method, type(rk.tableau).__name__,
          len(rk.tableau), type(rk.stage).__name__, rk.stage,
          type(rk.order).__name__, rk.order)
    for name, arr in zip("abc", rk.tableau):
        print("  ", name, type(arr).__name__, arr.flags["C_CONTIGUOUS"],
              arr.flags["WRITEABLE"], arr.flags["OWNDATA"], arr_digest(arr))
    # a second call gives independent arrays
    tab2, stage2, order2 = rk.get_tableau()
    print("   fresh", [x is y for x, y in zip(tab2, rk.tableau)], stage2, order2,
          [np.shares_memory(x, y) for x, y in zip(tab2, rk.tableau)])
    coeff = rk.runge_kutta_ti_coefficient()
    print("   coeff", arr_digest(coeff))
    # tableau unchanged by the coefficient computation
    print("   same", [np.array_equal(x, y) for x, y in zip(tab2, rk.tableau)])

print("== default method")
rk = RungeKutta()
print(rk.method, rk.stage, rk.order, arr_digest(rk.runge_kutta_ti_coefficient()))
rk = RungeKutta(method="Heun_RK2")
print(rk.method, rk.stage, rk.order, arr_digest(rk.runge_kutta_ti_coefficient()))

print("== bad methods")
for bad in ["foo", "c_rk4", "", None, 4, ("C_RK4",), np.str_("C_RK4"), b"C_RK4"]:
    attempt(f"init {bad!r}", lambda: (lambda r: (r.method, r.stage, r.order))(RungeKutta(bad)))
    rk = RungeKutta("C_RK4")
    rk.method = bad
    attempt(f"get_tableau {bad!r}", lambda: (lambda t: (t[1], t[2], [arr_digest(x) for x in t[0]]))(rk.get_tableau()))
for name in ["midpoint_RK2", "Heun_RK2", "Ralston_RK2", "RKF45", "Forward_Euler"]:
    rk = RungeKutta("C_RK4")
    rk.method = name
    tab, stage, order = rk.get_tableau()
    print("switched", name, stage, order, [arr_digest(x) for x in tab],
          rk.stage, rk.order)

print("== custom tableaux for runge_kutta_ti_coefficient")
rng = np.random.RandomState(2024)
cases = []
for n in [1, 2, 3, 5, 7]:
    a_full = rng.randn(n, n)                 # not lower triangular
    a_low = np.tril(rng.randn(n, n), -1)     # strictly lower triangular
    a_diag = np.tril(rng.randn(n, n), 0)     # implicit diagonal
    for a in (a_full, a_low, a_diag):
        cases.append((a, rng.randn(n), rng.randn(n), n))          # 1-D b
        cases.append((a, rng.randn(1, n), rng.randn(n), n))       # 2-D b, one row
        cases.append((a, rng.randn(3, n), rng.randn(n), n))       # 2-D b, three rows
# unusual ones
n = 3
a = np.tril(rng.randn(n, n), -1)
cases.append((a, np.array(1.5), rng.randn(n), n))                 # 0-d b
cases.append((a, rng.randn(2, 2, n), rng.randn(n), n))            # 3-D b
cases.append((a, rng.randn(1, 1, n), rng.randn(n), n))            # 3-D b with unit dims
cases.append((a, rng.randn(n) + 1j * rng.randn(n), rng.randn(n), n))   # complex b
cases.append((a + 1j * a, rng.randn(n), rng.randn(n), n))         # complex a
cases.append((a.astype(np.float32), rng.randn(n).astype(np.float32), rng.randn(n), n))
cases.append((np.arange(9).reshape(3, 3), np.arange(3), np.arange(3), n))   # integer
cases.append((rng.randn(4, 4), rng.randn(4), rng.randn(4), 3))    # stage < size
cases.append((rng.randn(3, 3), rng.randn(3), rng.randn(3), 4))    # stage > size
cases.append((rng.randn(2, 3), rng.randn(3), rng.randn(3), 3))    # too few rows
cases.append((rng.randn(3, 3), rng.randn(2), rng.randn(3), 3))    # b too short
cases.append((rng.randn(3, 3).tolist(), rng.randn(3), rng.randn(3), 3))   # list a
cases.append((rng.randn(3, 3), rng.randn(3).tolist(), rng.randn(3), 3))   # list b
cases.append((rng.randn(3, 3), rng.randn(3), None, 3))            # c is not used
cases.append((np.zeros((0, 0)), np.zeros(0), np.zeros(0), 0))     # empty
cases.append((np.zeros((0, 0)), np.zeros((2, 0)), np.zeros(0), 0))
for i, (a, b, c, stage) in enumerate(cases):
    rk = RungeKutta("C_RK4")
    rk.tableau = [a, b, c]
    rk.stage = stage
    a_copy = np.array(a, copy=True)
    b_copy = np.array(b, copy=True)
    attempt(f"case {i}", lambda: arr_digest(rk.runge_kutta_ti_coefficient()))
    print("   inputs untouched", np.array_equal(a_copy, np.asarray(a)),
          np.array_equal(b_copy, np.asarray(b)))
# tableau as a tuple / wrong length
rk = RungeKutta("Kutta_RK3")
rk.tableau = tuple(rk.tableau)
attempt("tuple tableau", lambda: arr_digest(rk.runge_kutta_ti_coefficient()))
rk.tableau = rk.tableau[:2]
attempt("short tableau", lambda: arr_digest(rk.runge_kutta_ti_coefficient()))

# --------------------------------------------------------------------------
# TaylorExpansion
# --------------------------------------------------------------------------
print("== TaylorExpansion")
for order in [0, 1, 2, 3, 4, 5, 8, 10, 20, 25, 169, 170, 171, 175, -1, -5, True,
              False, np.int64(4), np.int32(3), 2.0, 2.5, "3", None, np.array(3),
              np.array([3])]:
    def run():
        te = TaylorExpansion(order)
        return (sorted(vars(te).keys()), type(te.order).__name__, repr(te.order),
                type(te.coeff).__name__, arr_digest(te.coeff))
    attempt(f"taylor {order!r}", run)
attempt("taylor kw", lambda: arr_digest(TaylorExpansion(order=3).coeff))
cfg = EvolveConfig()
print("cfg", cfg.taylor_config.order, arr_digest(cfg.taylor_config.coeff),
      cfg.rk_config.method, cfg.rk_config.stage, cfg.rk_config.order)
cfg = EvolveConfig(adaptive=True, rk_solver="Cash-Karp45")
print("cfg", cfg.taylor_config.order, arr_digest(cfg.taylor_config.coeff),
      cfg.rk_config.method, cfg.rk_config.stage, cfg.rk_config.order)

# --------------------------------------------------------------------------
# Mps._evolve_prop_and_compress_tdrk4
# --------------------------------------------------------------------------
print("== tdrk4")
ph = Phonon.simple_phonon(Quantity(1.0), Quantity(1.0), 3)
mol = Mol(Quantity(0.3), [ph])
model = HolsteinModel([mol] * 3, Quantity(0.7), 3)
mpo = Mpo(model)
mpo2 = Mpo(model, offset=Quantity(0.25))


def rnd(x, nd=9):
    x = np.asarray(x)
    x = np.round(x, nd) + 0.0
    return x.tolist()


def mps_digest(mps):
    dense = mps.todense() if not isinstance(mps, MpDm) else None
    out = [type(mps).__name__, str(np.dtype(mps.dtype)), mps.bond_dims, mps.qntot,
           mps.qnidx, mps.to_right, rnd(mps.coeff), rnd(mps.norm),
           rnd(mps.e_occupations), rnd(mps.ph_occupations),
           rnd(mps.expectation(mpo))]
    if dense is not None:
        out.append(rnd(np.abs(dense).ravel()[:12], 8))
    return out


def make_states():
    np.random.seed(7)
    states = {}
    s = Mps.random(model, 1, 4, percent=1.0)
    s.compress_config = CompressConfig(CompressCriteria.fixed, max_bonddim=6)
    states["random_qn1"] = s
    s = Mps.random(model, 2, 5, percent=1.0)
    s.compress_config = CompressConfig(CompressCriteria.threshold, threshold=1e-6)
    states["random_qn2_thresh"] = s
    gs = Mps.ground_state(model, False)
    s = Mpo.onsite(model, r"a^\dagger", dof_set={0}) @ gs
    s = s.expand_bond_dimension(hint_mpo=mpo)
    s.compress_config = CompressConfig(CompressCriteria.fixed, max_bonddim=8)
    states["excited"] = s
    s = states["random_qn1"].copy().to_complex()
    s.coeff = 0.6 - 0.8j
    states["complex_coeff"] = s
    s = states["random_qn1"].copy()
    s.ensure_right_canonical()
    states["right_canon"] = s
    d = MpDm.from_mps(states["excited"]).expand_bond_dimension(hint_mpo=mpo)
    d.compress_config = CompressConfig(CompressCriteria.fixed, max_bonddim=8)
    states["mpdm"] = d
    return states


class TimeDependent:
    """callable Hamiltonian that records how it is called"""

    def __init__(self):
        self.calls = []

    def __call__(self, t, *args, **kwargs):
        self.calls.append((rnd(t), len(args), sorted(kwargs)))
        return mpo if len(self.calls) % 2 else mpo2


states = make_states()
for name, state in states.items():
    for dt in [0.1, -0.05, 0.02 - 0.03j, -0.1j, 0, np.float64(0.07), 1]:
        state.evolve_config = EvolveConfig(EvolveMethod.prop_and_compress_tdrk4)
        before = mps_digest(state)

        def run():
            new = state._evolve_prop_and_compress_tdrk4(mpo, dt)
            return (new is state, mps_digest(new))
        attempt(f"{name} dt={dt!r} mpo", run)
        td = TimeDependent()

        def run_td():
            new = state._evolve_prop_and_compress_tdrk4(td, dt)
            return (new is state, mps_digest(new), td.calls)
        attempt(f"{name} dt={dt!r} callable", run_td)
        print("   self untouched", before == mps_digest(state))

state = states["random_qn1"]
for bad in [None, 3, "mpo", [mpo], state]:
    attempt(f"bad mpo {type(bad).__name__}",
            lambda: state._evolve_prop_and_compress_tdrk4(bad, 0.1))
attempt("lambda without varargs",
        lambda: mps_digest(state._evolve_prop_and_compress_tdrk4(lambda t: mpo2, 0.1)))
attempt("raising callable",
        lambda: state._evolve_prop_and_compress_tdrk4(lambda t: 1 / 0, 0.1))
attempt("dt None", lambda: state._evolve_prop_and_compress_tdrk4(mpo, None))

# through the public entry point, several steps
for name in ["excited", "mpdm", "complex_coeff"]:
    s = states[name].copy()
    s.evolve_config = EvolveConfig(EvolveMethod.prop_and_compress_tdrk4)
    for step in range(3):
        s = s.evolve(mpo, 0.2)
        print("evolve", name, step, mps_digest(s))
    s = s.evolve(mpo, -0.1j)
    print("evolve imag", name, mps_digest(s))
    s = s.evolve(mpo2, 0.1, normalize=False)
    print("evolve no-normalize", name, mps_digest(s))
