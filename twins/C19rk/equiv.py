"""Equivalence digest for the C19rk refactoring of renormalizer/utils/rk.py.

Exercises TaylorExpansion.__init__, RungeKutta.get_tableau and
RungeKutta.runge_kutta_ti_coefficient, on the shipped methods and on
hand-made (also degenerate / invalid) tableaux.  All numbers are printed
bit-exactly (hex of the raw bytes).
"""
import warnings

import numpy as np

from renormalizer.utils import rk
from renormalizer.utils.rk import RungeKutta, TaylorExpansion, method_list


def arr_digest(x):
    if not isinstance(x, np.ndarray):
        return f"{type(x).__name__}:{x!r}"
    return (
        f"ndarray dtype={x.dtype} shape={x.shape} "
        f"C={x.flags['C_CONTIGUOUS']} F={x.flags['F_CONTIGUOUS']} "
        f"own={x.flags['OWNDATA']} w={x.flags['WRITEABLE']} "
        f"base={type(x.base).__name__} "
        f"hex={np.ascontiguousarray(x).tobytes().hex()}"
    )


def attempt(label, fn):
    with warnings.catch_warnings(record=True) as wlist:
        warnings.simplefilter("always")
        try:
            res = fn()
            out = res if isinstance(res, str) else arr_digest(res)
        except BaseException as e:  # noqa
            out = f"EXC {type(e).__name__}: {e}"
        wtxt = sorted(f"{w.category.__name__}:{w.message}" for w in wlist)
    print(f"{label} -> {out} | warnings={wtxt}")


def tableau_digest(res):
    tableau, nstage, order = res
    lines = [
        f"container={type(tableau).__name__} len={len(tableau)}",
        f"nstage={type(nstage).__name__}:{nstage!r}",
        f"order={type(order).__name__}:{order!r}",
    ]
    for name, x in zip("abc", tableau):
        lines.append(f"{name}: {arr_digest(x)}")
    return "\n    ".join(lines)


print("method_list", method_list)
print("module names", sorted(n for n in ("RungeKutta", "TaylorExpansion", "method_list") if hasattr(rk, n)))

# ---------------------------------------------------------------- Taylor
print("== TaylorExpansion")
for order in [0, 1, 2, 3, 4, 5, 8, 10, 20, 30, 170, 171, 200, -1, -5, True, False,
              np.int64(4), np.int32(0), 2.0, 2.5, None, "3", np.array(3), np.array([3])]:
    def run(order=order):
        t = TaylorExpansion(order)
        same = t.order is order
        return f"order_is_arg={same} order={t.order!r} attrs={sorted(vars(t))} coeff={arr_digest(t.coeff)}"
    attempt(f"Taylor({order!r})", run)

# ---------------------------------------------------------------- tableaux
print("== get_tableau on shipped methods")
for m in method_list:
    def run(m=m):
        r = RungeKutta(m)
        first = tableau_digest((r.tableau, r.stage, r.order))
        again = r.get_tableau()
        second = tableau_digest(again)
        fresh = all(x is not y for x, y in zip(r.tableau, again[0]))
        third = tableau_digest(RungeKutta(m).get_tableau())
        return (f"method={r.method!r} attrs={sorted(vars(r))}\n    {first}\n  repeat_equal={first == second}"
                f" fresh_objects={fresh} new_instance_equal={first == third}")
    attempt(f"RungeKutta({m!r})", run)

print("== default / invalid constructor arguments")
attempt("RungeKutta()", lambda: RungeKutta().method)
for bad in ["rk4", "c_rk4", "", None, 4, 1.0, ("C_RK4",), ["C_RK4"], {"C_RK4": 1}, b"C_RK4", np.str_("C_RK4"),
            np.array("C_RK4")]:
    def run(bad=bad):
        r = RungeKutta(bad)
        return f"method={r.method!r}\n    " + tableau_digest((r.tableau, r.stage, r.order))
    attempt(f"RungeKutta({bad!r})", run)

print("== method attribute changed after construction")
for start in ["C_RK4", "RKF45"]:
    for new in method_list + ["nope", "", None, 0, ["Heun_RK2"], ("Heun_RK2",), {"Heun_RK2"}, np.str_("Heun_RK2"),
                              "heun_rk2", "Heun_RK2 "]:
        def run(start=start, new=new):
            r = RungeKutta(start)
            r.method = new
            res = r.get_tableau()
            unchanged = tableau_digest((r.tableau, r.stage, r.order)) == tableau_digest(RungeKutta(start).get_tableau())
            return f"instance_unchanged={unchanged}\n    " + tableau_digest(res)
        attempt(f"{start}->method={new!r}", run)

# ---------------------------------------------------------------- ti coefficient
print("== runge_kutta_ti_coefficient on shipped methods")
for m in method_list:
    def run(m=m):
        r = RungeKutta(m)
        before = tableau_digest((r.tableau, r.stage, r.order))
        c1 = r.runge_kutta_ti_coefficient()
        c2 = r.runge_kutta_ti_coefficient()
        after = tableau_digest((r.tableau, r.stage, r.order))
        return (f"{arr_digest(c1)} repeat_equal={arr_digest(c1) == arr_digest(c2)} fresh={c1 is not c2}"
                f" tableau_untouched={before == after}")
    attempt(f"ti_coeff({m})", run)


def custom(a, b, c, stage, label):
    def run():
        r = RungeKutta("C_RK4")
        r.tableau = [a, b, c]
        r.stage = stage
        snap = [arr_digest(x) for x in (a, b, c)]
        res = r.runge_kutta_ti_coefficient()
        same = snap == [arr_digest(x) for x in (a, b, c)]
        return f"{arr_digest(res)} inputs_untouched={same}"
    attempt(f"custom {label}", run)


print("== runge_kutta_ti_coefficient on hand-made tableaux")
rng = np.random.default_rng(20260926)
for n in [1, 2, 3, 4, 5, 7]:
    full = rng.standard_normal((n, n))
    lower = np.tril(full, -1)
    upper = np.triu(full, 1)
    diag_impl = np.tril(full, 0)
    for aname, a in [("lower", lower), ("diag_implicit", diag_impl), ("full", full), ("upper", upper),
                     ("fortran", np.asfortranarray(full)), ("f32", lower.astype(np.float32)),
                     ("int", (lower * 3).astype(np.int64))]:
        c = a.sum(axis=1)
        b1 = rng.standard_normal(n)
        custom(a, b1, c, n, f"n={n} a={aname} b1d")
        custom(a, b1.reshape(1, n), c, n, f"n={n} a={aname} b(1,n)")
        custom(a, rng.standard_normal((2, n)), c, n, f"n={n} a={aname} b(2,n)")
        custom(a, rng.standard_normal((3, n))[::-1], c, n, f"n={n} a={aname} b(3,n)rev")
    # unusual ranks / shapes of b
    custom(lower, np.array(1.5), lower.sum(1), n, f"n={n} b0d")
    custom(lower, rng.standard_normal((2, 3, n)), lower.sum(1), n, f"n={n} b(2,3,n)")
    custom(lower, rng.standard_normal((1, 3, n)), lower.sum(1), n, f"n={n} b(1,3,n)")
    custom(lower, rng.standard_normal((1, 1, n)), lower.sum(1), n, f"n={n} b(1,1,n)")
    custom(lower, rng.standard_normal((n + 1,)), lower.sum(1), n, f"n={n} b too long")
    custom(lower, rng.standard_normal((2, n + 1)), lower.sum(1), n, f"n={n} b2d too long")
    custom(lower, rng.standard_normal((0, n)), lower.sum(1), n, f"n={n} b(0,n)")
    custom(lower, list(rng.standard_normal(n)), lower.sum(1), n, f"n={n} b list")
    # complex / integer / boolean weights
    custom(lower, b1 + 1j * rng.standard_normal(n), lower.sum(1), n, f"n={n} b complex 1d")
    custom(lower, rng.standard_normal((2, n)) + 1j, lower.sum(1), n, f"n={n} b complex 2d")
    custom(lower + 1j * np.tril(rng.standard_normal((n, n)), -1), b1, None, n, f"n={n} a complex")
    custom(lower, np.arange(n), None, n, f"n={n} b int")
    custom(lower, np.arange(2 * n).reshape(2, n) % 2 == 0, None, n, f"n={n} b bool")
    # special values
    anan = lower.copy()
    if n > 1:
        anan[-1, 0] = np.nan
        anan[1, 0] = np.inf
    custom(anan, b1, None, n, f"n={n} a nan/inf")
    custom(lower, np.full(n, np.inf), None, n, f"n={n} b inf")
    # stage count not matching the matrix
    custom(lower, b1, None, n + 1, f"n={n} stage+1")
    custom(lower, b1, None, n - 1, f"n={n} stage-1")
    custom(lower, b1[: n - 1], None, n - 1, f"n={n} stage-1 b short")
    custom(lower, b1, None, float(n), f"n={n} stage float")
    custom(lower, b1, None, np.int64(n), f"n={n} stage np.int64")
    custom(list(map(list, lower)), b1, None, n, f"n={n} a list")
    custom(lower[0], b1, None, n, f"n={n} a 1d")

custom(np.zeros((0, 0)), np.zeros(0), np.zeros(0), 0, "n=0 b1d")
custom(np.zeros((0, 0)), np.zeros((1, 0)), np.zeros(0), 0, "n=0 b(1,0)")
custom(np.zeros((0, 0)), np.zeros((2, 0)), np.zeros(0), 0, "n=0 b(2,0)")
custom(np.zeros((1, 1)), np.ones(1), np.zeros(1), -1, "stage=-1")
custom(np.zeros((1, 1)), np.ones(1), np.zeros(1), -2, "stage=-2")


def bad_tableau(tab, label):
    def run():
        r = RungeKutta("Heun_RK2")
        r.tableau = tab
        return r.runge_kutta_ti_coefficient()
    attempt(f"bad tableau {label}", run)


bad_tableau(None, "None")
bad_tableau([np.zeros((2, 2)), np.ones(2)], "two items")
bad_tableau([np.zeros((2, 2)), np.ones(2), np.zeros(2), 1], "four items")
bad_tableau((np.array([[0, 0], [1, 0]]), np.array([0.5, 0.5]), np.array([0, 1])), "tuple int")

print("== Taylor vs RK consistency (values only)")
for m in method_list:
    r = RungeKutta(m)
    co = r.runge_kutta_ti_coefficient()
    t = TaylorExpansion(r.order[0]).coeff
    print(m, [float.hex(float(x)) for x in (co[0, : r.order[0] + 1] - t)])
